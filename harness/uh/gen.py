"""Seeded program generators for the correspondence checks.

Programs are built as small trees and rendered to program text; all randomness
comes from the `random.Random` passed in.  The main generator is type-directed so
that most programs evaluate to a value; `gen_illtyped` is the separate malformed
stream (random built-in × random arguments)."""
import random

JAMO = "ㄱㄴㄷㄹㅁㅂㅅㅈ"

def enc(n: int) -> str:
    """the harness's own literal encoder (independent of the implementation's)"""
    neg = n < 0
    n = abs(n)
    ds = []
    while True:
        ds.append(n % 8)
        n //= 8
        if n == 0:
            break
    if (len(ds) % 2 == 0) != neg:
        ds.append(0)
    return "".join(JAMO[d] for d in ds)

# ---- tree → text --------------------------------------------------------------------------

def lit(n): return ('lit', n)
def call(f, *args): return ('call', f, list(args))
def bi(name, *args): return ('call', ('name', name), list(args))     # built-in by jamo name
def fundef(body): return ('def', body)
def arg(i, rel=0): return ('arg', lit(i) if isinstance(i, int) else i, rel)
def funref(rel): return ('fref', rel)
def raw(text): return ('raw', text)

def render(t) -> str:
    k = t[0]
    if k == 'lit': return enc(t[1])
    if k == 'name': return t[1]
    if k == 'raw': return t[1]
    if k == 'call': return " ".join([render(a) for a in t[2]] + [render(t[1]), "ㅎ" + enc(len(t[2]))])
    if k == 'def': return render(t[1]) + " ㅎ"
    if k == 'arg': return render(t[1]) + " ㅇ" + enc(t[2])
    if k == 'fref': return enc(t[1]) + " ㅇ"
    raise ValueError(k)

def size(t) -> int:
    k = t[0]
    if k in ('lit', 'name', 'raw', 'fref'): return 1
    if k == 'call': return 1 + size(t[1]) + sum(size(a) for a in t[2])
    if k == 'def': return 1 + size(t[1])
    if k == 'arg': return 1 + size(t[1])
    return 1

# ---- value literals ------------------------------------------------------------------------

def bytes_lit(b: bytes):
    if not b:
        return call(bi('ㅂ', lit(5), lit(5)) if False else raw("(ㄱ ㄴ ㅂ ㅂ ㅂㅎㄷ ㅎㄷ)"), bi('ㅁㅈ'))
    n = int.from_bytes(b, 'little')
    return call(raw(f"(ㄴ {enc(len(b))} ㅂ ㅂ ㅂㅎㄷ ㅎㄷ)"), lit(n))

def str_lit(s: str):
    if s == "":
        return bi('ㅁㅈ')
    return call(raw("(ㄱ ㄴ ㅂ ㅂ ㅂㅎㄷ ㅎㄷ)"), bytes_lit(s.encode('utf-8')))

def float_lit(rng):
    """a float expression: p / 2^k, or int→float conversion, or a special value"""
    c = rng.random()
    if c < 0.5:
        return bi('ㄱ', lit(rng.randint(-40, 40)), bi('ㅅ', lit(2), lit(-rng.randint(0, 6))))
    if c < 0.8:
        return bi('ㅅㅅ', lit(rng.choice([0, 1, -1, 3, 10, 2**53, 2**53 + 1, -7, 255])))
    if c < 0.9:
        return bi('ㅅㅅ', str_lit(rng.choice(["0.1", "1e300", "-2.5", "1e-320", "3.14", "123456789.125"])))
    return raw(rng.choice(["(ㅂ ㅅ ㅁ ㅂㅎㄹ)", "(ㅂ ㅅ ㅂ ㅂㅎㄹ)", "(ㅂ ㅅ ㅈ ㅂㅎㄹ)"]))

BOOL_T, BOOL_F, NIL = bi('ㅈㅈ'), bi('ㄱㅈ'), bi('ㅂㄱ')
SAMPLE_STRS = ["", "a", "ab", "가나", "a,b,,c", "  x ", "😀z", "12", "-7", "0x1f", "1.5", "한글 abc"]

# ---- type-directed generator ---------------------------------------------------------------

class Ctx:
    """lexical context: one frame per enclosing function; a frame lists its argument types,
    `fns[i]` is the (param types, result type) of the i-th enclosing function (innermost first)"""
    def __init__(self, frames=(), fns=()):
        self.frames = list(frames)   # innermost first: list of list of types
        self.fns = list(fns)

    def push(self, argtypes, sig):
        return Ctx([list(argtypes)] + self.frames, [sig] + self.fns)


class Gen:
    def __init__(self, rng: random.Random, max_depth=5, ints=None):
        self.rng = rng
        self.max_depth = max_depth
        self.ints = ints or [0, 1, 2, 3, -1, -2, 5, 7, 10, -8, 64, 100, 2**31, -2**63, 2**64 + 3, 10**20]
        self.stats = {}

    def hit(self, k):
        self.stats[k] = self.stats.get(k, 0) + 1

    def pick_int(self):
        r = self.rng
        return r.choice(self.ints) if r.random() < 0.7 else r.randint(-300, 300)

    # types: 'int' 'bool' 'float' 'str' 'bytes' 'nil' ('list', T) ('dict', K, V) ('fn', (params), R)
    def rand_type(self, depth=0):
        r = self.rng
        base = ['int', 'int', 'bool', 'str', 'float', 'bytes', 'nil']
        if depth < 2 and r.random() < 0.35:
            c = r.random()
            if c < 0.5: return ('list', self.rand_type(depth + 1))
            if c < 0.7: return ('dict', r.choice(['int', 'str', 'bool']), self.rand_type(depth + 1))
            return ('fn', tuple(self.rand_type(depth + 1) for _ in range(r.randint(0, 2))), self.rand_type(depth + 1))
        return r.choice(base)

    def arg_refs(self, ty, ctx):
        out = []
        for rel, frame in enumerate(ctx.frames):
            for i, t in enumerate(frame):
                if t == ty:
                    out.append((i, rel))
        return out

    def gen(self, ty, ctx=None, depth=0):
        ctx = ctx or Ctx()
        r = self.rng
        leaf = depth >= self.max_depth
        # variables
        refs = self.arg_refs(ty, ctx)
        if refs and r.random() < (0.6 if leaf else 0.3):
            i, rel = r.choice(refs)
            self.hit('argref')
            if r.random() < 0.15 and not leaf:   # computed position
                self.hit('argref-computed')
                return arg(bi('ㄷ', lit(i - 1), lit(1)), self._rel(rel, ctx))
            return arg(i, self._rel(rel, ctx))
        # generic wrappers available at any type
        if not leaf:
            c = r.random()
            if c < 0.12:
                # immediately applied function: (λ x… . body) a…
                n = r.randint(0, 3)
                ats = [self.rand_type(1) for _ in range(n)]
                body = self.gen(ty, ctx.push(ats, (tuple(ats), ty)), depth + 1)
                self.hit('iife')
                return call(fundef(body), *[self.gen(t, ctx, depth + 1) for t in ats])
            if c < 0.20:
                # Boolean selection (lazy): b x y
                self.hit('boolsel')
                return call(self.gen('bool', ctx, depth + 1), self.gen(ty, ctx, depth + 1), self.gen(ty, ctx, depth + 1))
            if c < 0.25:
                # list indexing
                k = r.randint(1, 3)
                idx = r.randrange(k)
                elems = [self.gen(ty, ctx, depth + 1) for _ in range(k)]
                self.hit('listindex')
                return call(bi('ㅁㄹ', *elems), lit(idx if r.random() < 0.7 else idx - k))
            if c < 0.29:
                # dict lookup
                kt = r.choice(['int', 'str'])
                keys = [self.gen(kt, ctx, depth + 2) for _ in range(r.randint(1, 3))]
                kv = []
                for kx in keys:
                    kv += [kx, self.gen(ty, ctx, depth + 1)]
                self.hit('dictlookup')
                return call(bi('ㅅㅈ', *kv), r.choice(keys))
            if c < 0.33:
                # try: body handler
                self.hit('try')
                handler = fundef(self.gen(ty, ctx.push([('exc',)], ((('exc',),), ty)), depth + 1))
                return bi('ㅅㄷ', self.gen(ty, ctx, depth + 1), handler)
            if c < 0.36 and ctx.fns:
                # call an enclosing function recursively? too risky for termination: only reference identity
                pass
        m = getattr(self, 'g_' + (ty if isinstance(ty, str) else ty[0]))
        return m(ty, ctx, depth, leaf)

    def _rel(self, rel, ctx):
        # positive index from the innermost, or the equivalent negative index from the outermost
        # (not when the expression is going to be embedded under further function definitions: `neg_rel = False`)
        if getattr(self, 'neg_rel', True) and self.rng.random() < 0.2:
            return -(len(ctx.frames) - rel)
        return rel

    # ---- per type ----
    def g_int(self, ty, ctx, depth, leaf):
        r = self.rng
        if leaf or r.random() < 0.25:
            return lit(self.pick_int())
        g = lambda t: self.gen(t, ctx, depth + 1)
        c = r.randrange(14)
        self.hit('int%d' % c)
        if c == 0: return bi('ㄷ', *[g('int') for _ in range(r.randint(1, 4))])
        if c == 1: return bi('ㄱ', *[g('int') for _ in range(r.randint(1, 3))])
        if c == 2: return bi('ㄴㄴ', g('int'), lit(r.choice([1, 2, 3, -3, 7, -1, 10**9])))
        if c == 3: return bi('ㄴㅁ', g('int'), lit(r.choice([1, 2, 3, -3, 7, -5, 2**40])))
        if c == 4: return bi('ㅅ', g('int') if r.random() < 0.5 else lit(r.randint(-5, 5)), lit(r.randint(0, 6)))
        if c == 5: return bi('ㅈㄷ', g(('list', r.choice(['int', 'bool']))) if r.random() < 0.5 else g('str'))
        if c == 6: return bi('ㅈㅅ', g('float') if r.random() < 0.3 else bi('ㅁㅈ', g('int')))
        if c == 7: return bi('ㅅ', g('int'), lit(r.randint(0, 20)), lit(r.choice([7, 13, -10, 1, 2**61 - 1])))
        if c == 8:
            op = r.choice(['ㄱ', 'ㄷ', 'ㅂ'])
            return call(raw(f"(ㅂ ㅂㄷ {op} ㅂㅎㄹ)"), g('int'), g('int'))
        if c == 9: return call(raw("(ㅂ ㅂㄷ ㅈ ㅂㅎㄹ)"), g('int'), lit(r.randint(-70, 70)))
        if c == 10: return call(raw("(ㅂ ㅂㄷ ㅁ ㅂㅎㄹ)"), g('int'))
        if c == 11:
            rd = r.choice(['ㄱ', 'ㄴ', 'ㄷ', 'ㄹ', 'ㅁ'])
            return call(raw(f"(ㅂ ㅅ ㅂㄹ {rd} ㅂㅎㅁ)"), g('float'))
        if c == 12:
            return bi('ㅅㄹ', g(('list', 'int')), raw('ㄷ'), ) if r.random() < 0.5 else \
                bi('ㅅㄹ', raw('ㄷ'), lit(0), g(('list', 'int')))
        return call(raw("(ㄷ ㄴ ㅂ ㅂ ㅂㅎㄷ ㅎㄷ)"), bytes_lit(bytes([r.randrange(256)])))

    def g_bool(self, ty, ctx, depth, leaf):
        r = self.rng
        if leaf or r.random() < 0.25:
            return r.choice([BOOL_T, BOOL_F])
        g = lambda t: self.gen(t, ctx, depth + 1)
        c = r.randrange(7)
        self.hit('bool%d' % c)
        if c == 0: return bi('ㅈ', g('int'), g('int'))
        if c == 1:
            t = r.choice(['int', 'str', 'bool', ('list', 'int'), 'float', 'nil', 'bytes'])
            return bi('ㄴ', *[g(t) for _ in range(r.randint(1, 3))])
        if c == 2: return bi('ㅁ', g('bool'))
        if c == 3: return bi('ㄱ', *[g('bool') for _ in range(r.randint(1, 3))])
        if c == 4: return bi('ㄷ', *[g('bool') for _ in range(r.randint(1, 3))])
        if c == 5: return bi('ㅈ', g('float'), g('int'))
        return bi('ㄴ', g('int'), g('float'))

    def g_float(self, ty, ctx, depth, leaf):
        r = self.rng
        if leaf or r.random() < 0.4:
            return float_lit(r)
        g = lambda t: self.gen(t, ctx, depth + 1)
        c = r.randrange(6)
        self.hit('float%d' % c)
        if c == 0: return bi('ㄷ', g('float'), g('int'))
        if c == 1: return bi('ㄱ', g('float'), g('float'))
        if c == 2: return bi('ㅅㅅ', g('int'))
        if c == 3: return bi('ㄴㄴ', g('float'), lit(r.choice([1, 2, -3, 7])))
        if c == 4: return bi('ㄴㅁ', g('float'), float_lit(r) if r.random() < 0.3 else lit(r.choice([1, 2, -3, 7])))
        return bi('ㅅㅅ', bi('ㅁㅈ', g('float')))

    def g_str(self, ty, ctx, depth, leaf):
        r = self.rng
        if leaf or r.random() < 0.35:
            return str_lit(r.choice(SAMPLE_STRS))
        g = lambda t: self.gen(t, ctx, depth + 1)
        c = r.randrange(6)
        self.hit('str%d' % c)
        if c == 0: return bi('ㅁㅈ', g(r.choice(['int', 'float', 'str'])))
        if c == 1: return bi('ㄷ', g('str'), g('str'))
        if c == 2: return bi('ㄱㅁ', bi('ㅂㄹ', g('str'), str_lit(r.choice([",", "a", "  ", "ab"]))), str_lit(r.choice(["", "-", ","])))
        if c == 3: return bi('ㅂㅈ', g('str'), lit(r.randint(-4, 4)), lit(r.randint(-4, 6)), lit(r.choice([1, 2, -1, -2, 3])))
        if c == 4: return call(g('str'), lit(0)) if r.random() < 0.5 else bi('ㅂㅈ', g('str'), lit(r.randint(-3, 3)))
        return call(raw("(ㄱ ㄴ ㅂ ㅂ ㅂㅎㄷ ㅎㄷ)"), g('bytes'))

    def g_bytes(self, ty, ctx, depth, leaf):
        r = self.rng
        if leaf or r.random() < 0.4:
            return bytes_lit(bytes(r.randrange(128) for _ in range(r.randint(0, 4))))
        g = lambda t: self.gen(t, ctx, depth + 1)
        c = r.randrange(4)
        self.hit('bytes%d' % c)
        if c == 0: return bi('ㄷ', g('bytes'), g('bytes'))
        if c == 1: return call(raw(f"(ㄱ {r.choice(['ㄴ', 'ㄷ', 'ㅁ'])} ㅂ ㅂ ㅂㅎㄷ ㅎㄷ)"), g('str'))
        if c == 2:
            w = r.choice([1, 2, 4, 8])
            return call(raw(f"({r.choice(['ㄴ', 'ㄷ'])} {enc(w)} {r.choice(['', 'ㅈㅈㅎㄱ', 'ㄱㅈㅎㄱ'])} ㅂ ㅂ ㅂㅎㄷ ㅎ{enc(2) if False else ''}".rstrip() + ")"), lit(r.randint(0, 100))) \
                if False else call(raw(f"(ㄴ {enc(w)} ㅂ ㅂ ㅂㅎㄷ ㅎㄷ)"), lit(r.randint(0, 200)))
        return bi('ㅂㅈ', g('bytes'), lit(r.randint(-3, 3)), lit(r.randint(-3, 5)))

    def g_nil(self, ty, ctx, depth, leaf):
        return NIL

    def g_exc(self, ty, ctx, depth, leaf):
        return bi('ㄷㅂ', lit(self.pick_int()))

    def g_list(self, ty, ctx, depth, leaf):
        r = self.rng
        et = ty[1]
        g = lambda t: self.gen(t, ctx, depth + 1)
        if leaf or r.random() < 0.45:
            return bi('ㅁㄹ', *[g(et) for _ in range(r.randint(0, 3))])
        c = r.randrange(5)
        self.hit('list%d' % c)
        if c == 0: return bi('ㄷ', g(ty), g(ty))
        if c == 1: return bi('ㅂㅈ', g(ty), lit(r.randint(-3, 3)), lit(r.randint(-3, 5)), lit(r.choice([1, 1, 2, -1])))
        if c == 2:
            st = r.choice(['int', 'bool', 'str'])
            f = fundef(self.gen(et, ctx.push([st], ((st,), et)), depth + 1))
            return bi('ㅁㄷ', g(('list', st)), f)
        if c == 3:
            f = fundef(self.gen('bool', ctx.push([et], ((et,), 'bool')), depth + 1))
            return bi('ㅅㅂ', g(ty), f)
        if et == 'str':
            return bi('ㅂㄹ', g('str'), str_lit(r.choice([",", "", " "])))
        return bi('ㅁㄹ', *[g(et) for _ in range(r.randint(0, 3))])

    def g_dict(self, ty, ctx, depth, leaf):
        r = self.rng
        kv = []
        for _ in range(r.randint(0, 3)):
            kv += [self.gen(ty[1], ctx, depth + 2), self.gen(ty[2], ctx, depth + 1)]
        d = bi('ㅅㅈ', *kv)
        if not leaf and r.random() < 0.3:
            self.hit('dictmerge')
            return bi('ㄷ', d, self.gen(ty, ctx, depth + 1))
        return d

    def g_fn(self, ty, ctx, depth, leaf):
        params, res = ty[1], ty[2]
        r = self.rng
        if not leaf and r.random() < 0.15 and len(params) == 1:
            self.hit('pipe')
            f1 = fundef(self.gen(res, ctx.push(list(params), (params, res)), depth + 1))
            f2 = fundef(self.gen(res, ctx.push([res], ((res,), res)), depth + 1))
            return bi('ㄴㄱ', f1, f2)
        return fundef(self.gen(res, ctx.push(list(params), (params, res)), depth + 1))

    def program(self):
        """a closed expression of a random printable type"""
        ty = self.rand_type()
        if isinstance(ty, tuple) and ty[0] == 'fn':
            # apply it so that something is computed
            f = self.gen(ty)
            return call(f, *[self.gen(t) for t in ty[1]])
        return self.gen(ty)


BUILTIN_NAMES = ["ㄱ", "ㄷ", "ㅅ", "ㄴㄴ", "ㄴㅁ", "ㄷㅂ", "ㅁㄹ", "ㅁㅈ", "ㅂㄱ", "ㅂㅅ", "ㅅㅅ", "ㅅㅈ", "ㅈㅅ",
                 "ㄷㅈ", "ㅅㄷ", "ㄴㄱ", "ㅁㅂ", "ㅂㅂ", "ㄹ", "ㅈㄹ", "ㄱㅅ", "ㄱㄹ", "ㄱㄴ", "ㄴ", "ㅁ", "ㅈ", "ㅈㅈ", "ㄱㅈ",
                 "ㅈㄷ", "ㅂㅈ", "ㅁㄷ", "ㅅㅂ", "ㅅㄹ", "ㅂㄹ", "ㄱㅁ"]
MODULE_FNS = ["(ㅂ ㅂㄷ ㄱ ㅂㅎㄹ)", "(ㅂ ㅂㄷ ㄷ ㅂㅎㄹ)", "(ㅂ ㅂㄷ ㅁ ㅂㅎㄹ)", "(ㅂ ㅂㄷ ㅂ ㅂㅎㄹ)", "(ㅂ ㅂㄷ ㅈ ㅂㅎㄹ)",
              "(ㅂ ㅂ ㅂㅎㄷ)", "(ㅂ ㅅ ㄱ ㅂㅎㄹ)", "(ㅂ ㅅ ㄴㄴ ㅂㅎㄹ)", "(ㅂ ㅅ ㅁㄴ ㅂㅎㄹ)", "(ㅂ ㅅ ㅈㄷ ㅂㅎㄹ)",
              "(ㅂ ㅅ ㅂㄹ ㄱ ㅂㅎㅁ)", "(ㅂ ㅅ ㅂㄹ ㄴ ㅂㅎㅁ)", "(ㅂ ㅅ ㅂㄹ ㄷ ㅂㅎㅁ)", "(ㅂ ㅅ ㅂㄹ ㄹ ㅂㅎㅁ)", "(ㅂ ㅅ ㅂㄹ ㅁ ㅂㅎㅁ)"]


def edge_value(rng, g: Gen):
    """an expression of a random kind, biased to edge values"""
    c = rng.randrange(16)
    if c == 0: return lit(rng.choice([0, 1, -1, 2, 255, 256, -129, 2**63, -2**63 - 1, 10**30, 7]))
    if c == 1: return float_lit(rng)
    if c == 2: return rng.choice([BOOL_T, BOOL_F])
    if c == 3: return str_lit(rng.choice(SAMPLE_STRS))
    if c == 4: return bytes_lit(bytes(rng.randrange(256) for _ in range(rng.randint(0, 3))))
    if c == 5: return bi('ㅁㄹ', *[edge_value(rng, g) for _ in range(rng.randint(0, 2))])
    if c == 6: return bi('ㅅㅈ', *[edge_value(rng, g) for _ in range(2 * rng.randint(0, 2))])
    if c == 7: return NIL
    if c == 8: return fundef(arg(0))
    if c == 9: return bi('ㄷㅂ', *[edge_value(rng, g) for _ in range(rng.randint(0, 2))])
    if c == 10: return bi('ㅂㅅ', lit(rng.randint(-2, 2)), lit(rng.randint(-2, 2)))
    if c == 11: return bi('ㄱㅅ', lit(rng.randint(0, 3)))
    if c == 12: return raw(rng.choice(["(ㅂ ㅅ ㅁ ㅂㅎㄹ)", "(ㅂ ㅅ ㄴ ㅂㅎㄹ)", "(ㄱ (ㅂ ㅅ ㅁ ㅂㅎㄹ) ㄴㄱ ㄱㅎㄷ)"]))
    if c == 13: return raw(rng.choice(MODULE_FNS))
    if c == 14: return raw(rng.choice(BUILTIN_NAMES))      # a bare literal (an integer value)
    return g.gen(g.rand_type(), None, g.max_depth - 2)


def gen_illtyped(rng, g: Gen):
    """a call of a random callee on random arguments (mostly ill-typed / wrong arity)"""
    n = rng.choice([0, 1, 1, 2, 2, 2, 3, 4])
    args = [edge_value(rng, g) for _ in range(n)]
    c = rng.random()
    if c < 0.6:
        f = raw(rng.choice(BUILTIN_NAMES))
    elif c < 0.8:
        f = raw(rng.choice(MODULE_FNS))
    else:
        f = edge_value(rng, g)
    t = call(f, *args)
    if rng.random() < 0.3:
        # wrapped in a try so that catchability is exercised as well
        t = bi('ㅅㄷ', t, fundef(arg(0)))
    return t


# ---- "wild" generator: untyped, scope-aware, every syntactic form ------------------------------------------

TYPICAL_ARITY = {"ㄱ": [2, 3], "ㄷ": [2, 3], "ㅅ": [2, 3], "ㄴㄴ": [2], "ㄴㅁ": [2], "ㄷㅂ": [0, 1, 2], "ㅁㄹ": [0, 1, 2, 3], "ㅁㅈ": [0, 1],
                 "ㅂㄱ": [0], "ㅂㅅ": [2], "ㅅㅅ": [1], "ㅅㅈ": [0, 2, 4], "ㅈㅅ": [1, 2], "ㄷㅈ": [1], "ㅅㄷ": [2], "ㄴㄱ": [0, 1, 2], "ㅁㅂ": [1],
                 "ㅂㅂ": [1], "ㄹ": [0], "ㅈㄹ": [1], "ㄱㅅ": [1], "ㄱㄹ": [2, 3], "ㄱㄴ": [2], "ㄴ": [2, 3], "ㅁ": [1], "ㅈ": [2], "ㅈㅈ": [0],
                 "ㄱㅈ": [0], "ㅈㄷ": [1], "ㅂㅈ": [2, 3, 4], "ㅁㄷ": [2], "ㅅㅂ": [2], "ㅅㄹ": [2, 3], "ㅂㄹ": [1, 2], "ㄱㅁ": [1, 2]}


def wild(rng, depth, nframes=0):
    """an arbitrary expression: literals, argument references (positions / frames in and slightly out of range, positive
    and negative, computed positions), function references (any index), definitions, immediately applied definitions,
    built-ins at typical and untypical arities, values of every kind as callees.  Mostly terminates (laziness, small
    numbers); the model is the oracle for everything that comes out, errors included."""
    c = rng.random()
    if depth <= 0 or c < 0.22:
        k = rng.random()
        if k < 0.45 or nframes == 0 and k < 0.7:
            return lit(rng.choice([0, 1, 2, 3, -1, 5, 10, -7]))
        if k < 0.8 and nframes > 0:
            pos = rng.choice([0, 0, 0, 1, 1, 2, -1, 3])
            rel = rng.choice(list(range(0, nframes)) * 3 + [nframes, -1, -nframes, -nframes - 1])
            return arg(pos, rel)
        if k < 0.9:
            return funref(rng.choice([0, 0, 1, -1, 2, -2, nframes, -nframes - 1]))
        return bi(rng.choice(["ㅁㄹ", "ㅁㅈ", "ㅂㄱ", "ㅈㅈ", "ㄱㅈ", "ㅅㅈ", "ㄷㅂ"]))
    if c < 0.32:
        return fundef(wild(rng, depth - 1, nframes + 1))
    if c < 0.50:
        n = rng.randint(0, 3)
        return call(fundef(wild(rng, depth - 1, nframes + 1)), *[wild(rng, depth - 1, nframes) for _ in range(n)])
    if c < 0.88:
        name = rng.choice(BUILTIN_NAMES)
        ar = rng.choice(TYPICAL_ARITY.get(name, [1, 2])) if rng.random() < 0.85 else rng.randint(0, 4)
        return bi(name, *[wild(rng, depth - 1, nframes) for _ in range(ar)])
    if c < 0.93 and nframes > 0:
        return arg(wild(rng, depth - 1, nframes), rng.randrange(nframes))          # computed position
    n = rng.randint(0, 2)
    return call(wild(rng, depth - 1, nframes), *[wild(rng, depth - 1, nframes) for _ in range(n)])
