"""Correspondence runner: executes cases on the implementation and on the Lean model
(in worker processes), compares canonical outcomes, applies per-property monitors."""
import os, sys, json, time, random, multiprocessing as mp, traceback
from dataclasses import dataclass, field, asdict
from typing import Any, Callable, Optional

OBS = ('results', 'err', 'spans', 'out', 'rest', 'code')


@dataclass
class Case:
    program: str
    stdin: str = ''
    fs: Optional[dict] = None            # path -> bytes | None (directory)
    format_io: bool = True
    mode: str = 'main'                   # main | cli | events
    argv: tuple = ()
    tag: str = ''
    variants: tuple = ()                 # other programs that must behave exactly like `program` on the implementation
    monitor: Optional[str] = None        # name of a monitor function registered by the property module
    data: Any = None                     # extra data for the monitor
    compare_fs: bool = False
    nontrivial: bool = True
    timeout: float = 5.0
    fuel: int = 3_000_000
    skip_model: bool = False
    before: tuple = ()               # programs evaluated first in the same process (outcomes ignored): the case's own program must
                                     # behave as it does stand-alone
    big: bool = False                # also evaluate with the verified big-step evaluator (driver command main2)
    timeout_fails: bool = False      # not finishing within `timeout` is itself a failure (termination is the property)

    def key(self):
        return (self.program, self.stdin, self.mode, self.argv, repr(sorted((self.fs or {}).items())))


def obs(r, compare_fs=False):
    d = {k: r.get(k) for k in OBS if k in r}
    d['kind'] = r.get('kind')
    if compare_fs:
        d['fs'] = r.get('fs')
    return d


def small(r):
    """a JSON-friendly rendering of an outcome"""
    out = {}
    for k, v in r.items():
        if k == 'fs':
            out[k] = {p: (c.hex() if isinstance(c, (bytes, bytearray)) else c) for p, c in (v or {}).items()}
        elif k == 'events':
            out[k] = len(v)
        else:
            out[k] = v
    return out


MONITORS: dict[str, Callable] = {}


def monitor(name):
    def deco(fn):
        MONITORS[name] = fn
        return fn
    return deco


def run_case(case: Case):
    """executed in a worker: returns a record dict"""
    from . import impl, model
    rec = {'tag': case.tag, 'status': 'agree', 'nontrivial': case.nontrivial}
    try:
        for pre in case.before:
            impl.run_main(pre, '', None, True, case.timeout)
        if case.mode == 'cli':
            a = impl.run_cli(case.program, case.argv, case.stdin, case.fs, case.timeout)
        elif case.mode == 'events':
            a = impl.run_main_events(case.program, case.stdin, case.fs, case.format_io, case.timeout)
        else:
            a = impl.run_main(case.program, case.stdin, case.fs, case.format_io, case.timeout)
    except Exception as e:      # harness failure
        return {'tag': case.tag, 'status': 'harness-error', 'detail': traceback.format_exc()[-800:]}
    rec['impl_kind'] = a['kind']
    if a['kind'] == 'err':
        rec['err'] = a['err']
    if a['kind'] == 'crash':
        rec['status'] = 'crash'
        rec['crash'] = a['crash']
        rec['detail'] = {'impl': small(a)}
        return rec
    if a['kind'] == 'timeout':
        if case.timeout_fails:
            rec['status'] = 'monitor-fail'
            rec['why'] = f'did not complete within {case.timeout:g} s [tag={case.tag}]'
            rec['detail'] = {'impl': small(a)}
            return rec
        rec['status'] = 'timeout'
        return rec
    # variants: must be observably identical on the implementation
    for v in case.variants:
        b = impl.run_main(v, case.stdin, case.fs, case.format_io, case.timeout) if case.mode != 'cli' \
            else impl.run_cli(v, case.argv, case.stdin, case.fs, case.timeout)
        if b['kind'] == 'timeout':
            continue
        oa, ob = obs(a, case.compare_fs), obs(b, case.compare_fs)
        oa.pop('spans', None); ob.pop('spans', None)      # source positions belong to a spelling, not to its meaning
        if oa != ob:
            rec['status'] = 'monitor-fail'
            rec['why'] = f'variant behaves differently [tag={case.tag}]'
            rec['detail'] = {'variant': v, 'reference': small(a), 'variant_outcome': small(b)}
            return rec
    if case.monitor:
        why = MONITORS[case.monitor](case, a)
        if why:
            rec['status'] = 'monitor-fail'
            rec['why'] = why
            rec['detail'] = {'impl': small(a)}
            return rec
    if case.skip_model:
        return rec
    try:
        if case.mode == 'cli':
            m = model.run_cli(case.program, case.argv, case.stdin, case.fs, case.fuel)
        else:
            m = model.run_main(case.program, case.stdin, case.fs, case.format_io, case.fuel,
                               events=(case.mode == 'events'))
    except Exception as e:
        return {'tag': case.tag, 'status': 'harness-error', 'detail': traceback.format_exc()[-800:]}
    rec['model_kind'] = m['kind']
    if m['kind'] in ('unmodelled', 'fuel'):
        rec['status'] = 'skip'
        rec['why'] = m.get('why', m['kind'])
        return rec
    if obs(m, case.compare_fs) != obs(a, case.compare_fs):
        rec['status'] = 'disagree'
        rec['detail'] = {'impl': small(a), 'model': small(m)}
        return rec
    if case.big and case.mode == 'main':
        # second model: the executable big-step evaluator (proved to agree with the machine whenever it returns —
        # BigStep.evalF_machine); a result here also witnesses that a derivation of the natural semantics exists
        try:
            b = model.run_main_big(case.program, case.stdin, case.fs, case.format_io)
        except Exception:
            return {'tag': case.tag, 'status': 'harness-error', 'detail': traceback.format_exc()[-800:]}
        rec['big_kind'] = b['kind']
        if b['kind'] not in ('fuel', 'unmodelled'):
            rec['big_height'] = b.get('height', 0)
            if obs(b, case.compare_fs) != obs(a, case.compare_fs):
                rec['status'] = 'disagree'
                rec['detail'] = {'impl': small(a), 'bigstep': small(b), 'model': small(m)}
                return rec
    if case.big and case.mode == 'main':
        # third evaluator: the call-by-name *reference semantics* itself (trees, no store; adequacy theorem ByName.adequacy):
        # where it assigns an integer / Boolean to the program, that is what the implementation must print
        try:
            bn = model.run_bn(case.program)
        except Exception:
            return {'tag': case.tag, 'status': 'harness-error', 'detail': traceback.format_exc()[-800:]}
        if bn is not None:
            rec['bn'] = 'fn' if bn == 'fn' else 'value'
            if bn != 'fn' and not (a['kind'] == 'ok' and a.get('results') == [bn]):
                rec['status'] = 'disagree'
                rec['detail'] = {'impl': small(a), 'by_name_value': bn, 'model': small(m)}
                return rec
    if case.mode == 'events':
        ia = [(e[0], e[1], tuple(e[2])) + ((e[4],) if e[0] == 'A' else ()) for e in a['events']]
        if ia != m.get('events'):
            rec['status'] = 'disagree'
            k = next((i for i, (x, y) in enumerate(zip(ia, m.get('events', []))) if x != y), min(len(ia), len(m.get('events', []))))
            rec['detail'] = {'events_differ_at': k, 'impl_n': len(ia), 'model_n': len(m.get('events', [])),
                             'impl_ev': [list(map(str, e)) for e in ia[max(0, k - 2):k + 3]],
                             'model_ev': [list(map(str, e)) for e in m.get('events', [])[max(0, k - 2):k + 3]]}
            return rec
        rec['n_events'] = len(ia)
    return rec


def _worker(args):
    idx, case = args
    try:
        rec = run_case(case)
    except BaseException as e:
        rec = {'status': 'harness-error', 'detail': traceback.format_exc()[-800:], 'tag': case.tag}
    rec['idx'] = idx
    return rec


def _chunk_worker(items):
    return [_worker(it) for it in items]


def _isolated(ctx, items, timeout=3600):
    """runs `items` in one fresh process; returns the records, or None when the process died / gave nothing back"""
    r, w = ctx.Pipe(duplex=False)
    def target():
        try:
            # everything inherited from the parent (the whole list of cases: 10^5 objects on the thorough tier) is long-lived:
            # keep it out of the collections the harness runs after every evaluation (impl.run calls gc.collect())
            import gc
            gc.freeze()
            w.send(_chunk_worker(items))
        finally:
            w.close()
    p = ctx.Process(target=target)
    p.start()
    w.close()
    out = None
    try:
        if r.poll(timeout):
            out = r.recv()
    except (EOFError, OSError):
        out = None
    p.join(5)
    if p.is_alive():
        p.kill(); p.join()
    return out, p.exitcode


def run_cases(cases, workers=None, chunk=32):
    """runs all cases; returns the list of records (same order).  Every chunk of cases runs in a fresh process of its own, which
    reports through its own pipe: there is no queue or lock shared between workers, so a process that dies (a crash of the host
    runtime that no `except` can see) or stalls loses only its chunk — which is then run again case by case, and the case that
    kills or stalls its process is recorded as a crash — and can never hang the check.  (A pool with a shared task queue did
    hang: thorough C13, all workers waiting for the queue's lock.)"""
    workers = workers or min(16, os.cpu_count() or 4)
    cases = list(cases)
    if len(cases) < 64 or workers <= 1:
        return [_worker((i, c)) for i, c in enumerate(cases)]
    from concurrent.futures import ThreadPoolExecutor
    ctx = mp.get_context('fork')
    items = list(enumerate(cases))
    # chunk size: small enough to keep every worker busy, large enough that starting a process (and its model driver, ≈ 0.5 s)
    # per chunk stays negligible on the thorough tier's 10^5 cases
    cs = max(1, min(max(chunk, len(cases) // (workers * 40)), len(cases) // (workers * 4)))
    chunks = [items[i:i + cs] for i in range(0, len(items), cs)]
    recs = [None] * len(items)

    def crashed(it, code, why):
        return {'idx': it[0], 'tag': it[1].tag, 'status': 'crash', 'nontrivial': it[1].nontrivial, 'impl_kind': 'crash',
                'crash': f'the process evaluating the case {why} (exit code {code}): a crash or stall of the host runtime',
                'detail': {'impl': {'kind': 'crash', 'crash': f'process {why}, exit code {code}'}}}

    def do(ch):
        out, code = _isolated(ctx, ch, timeout=max(900.0, 4 * sum(float(c.timeout) for _, c in ch)))
        if out is not None:
            return out
        res = []
        for it in ch:                 # the chunk kills or stalls its process: find the case(s)
            o, c1 = _isolated(ctx, [it], timeout=max(300.0, 6 * float(it[1].timeout)))
            res.append(o[0] if o is not None else crashed(it, c1, 'died' if c1 not in (None, -9) else 'did not finish'))
        return res

    with ThreadPoolExecutor(workers) as ex:
        for out in ex.map(do, chunks):
            for r in out:
                recs[r['idx']] = r
    return recs
