#!/usr/bin/env python3
"""Writes /verif/MANIFEST.json from the table below (keeps it valid and current)."""
import json, os
HERE = os.path.dirname(os.path.abspath(__file__))
VERIF = os.path.dirname(HERE)
IDS = [json.loads(l)['id'] for l in open(os.path.join(VERIF, 'properties.jsonl'))]

COMMON_NOTE = ("Trusted: Lean 4.33 kernel; axioms propext / Classical.choice / Quot.sound only (audited every run); "
               "the tie-A translators (harness/extract) and the tie-B correspondence harness (harness/uh), which "
               "establishes agreement of model and implementation only on the generated inputs; the hand-written "
               "model UH/Model/*.lean is tied to the code by that correspondence, not by proof. ")

TEXT = {
 'C01': ("Kernel-checked theorems: the per-code-point normalisation table extracted from the current Python source "
         "(all 1,114,112 code points) and translated from parse.ts (all code units) equals the specification map defined "
         "from Unicode letter names (verified interval checker); block independence, syllable = initial, ㅇ/ㅎ start "
         "words, tokens are well-formed words, same skeleton ⇒ same parse up to spans. Evaluation of re-spelled programs "
         "is covered by correspondence.", "5 C01"),
 'C02': ("Theorems about the model's interpret / applyCallee: index rules of function and argument references, closures "
         "capture the defining environment and are applied in it independently of the caller, self/outer references, the "
         "selection / indexing rule of every callable kind; a big-step (natural) semantics Eval of the whole evaluator with "
         "a soundness theorem (every derivation is realised by the micro-step machine under any stack with room) and the "
         "call-by-need rules of the core calculus — literal, function reference / definition, argument reference, closure call, β — "
         "as derived rules; a memo-free call-by-name reference semantics on trees and the adequacy theorem: the evaluator (memo cells, "
         "requestor chains, tail returns) computes exactly its values — for literals, functions, argument references, Booleans and "
         "selection, integer ㄴ / ㄷ / ㄱ / ㅈ, list construction and list selection; a verified executable big-step evaluator and the "
         "executable reference semantics run next to the "
         "implementation on every case. That the implementation computes what the model computes is "
         "the correspondence on generated programs.", "5 C02"),
 'C03': ("Theorems about the coroutine trees of the model: for each position the specification declares non-strict "
         "(unselected Boolean branch, operands after the deciding one of Boolean ㄱ/ㄷ, list elements, unused arguments, "
         "operands of ㄴ after a difference, the handler of a ㅅㄷ that does not raise) the tree is literally independent of "
         "what is there, and delayed expressions are evaluated only by force nodes (C13); in the call-by-name reference semantics "
         "(adequate for the evaluator) an unselected branch, an unused argument and every unselected list element are irrelevant. "
         "Implementation: every payload "
         "variant (throwing, ill-typed, diverging to the evaluator limit, …) must behave like a harmless literal.", "5 C03"),
 'C04': ("The model has no host-crash outcome: every built-in is a total function into the coroutine monad; theorems: every "
         "built-in failure carries marker 5 + a class code of error.py (regenerated table) + a location, ㅅㄷ / ㄱㄹ handlers "
         "receive every exception whatever its contents, syntax errors are language exceptions. That the implementation "
         "raises no host exception is established by the call-shape matrix of the correspondence (every callee × arity × "
         "argument kind × edge value, file handle states, failing imports).", "5 C04"),
 'C05': ("Invariant proofs over the model of interpret.evaluate, generic in the coroutines: tail return replaces the frame "
         "(height unchanged), closure / Boolean calls end in a delayed expression (so they are tail returns), the stack "
         "height is below MAX_STACK_SIZE (regenerated from the source) in every reachable running state, the limit report "
         "arises only on a push; in the big-step semantics a tail return consumes no height, so a loop of any number of tail "
         "returns runs on the machine within the height of its deepest iteration (tail_loops_constant_stack). Host-stack behaviour (not representable) is exercised by a loop ladder to 10^4 / 10^6 "
         "iterations; two host-recursion defects are recorded findings.", "5 C05"),
 'C10': ("Theorems: ㄷㅈ raises exactly the given exception, ㅅㄷ returns the deep-forced value or calls the handler with "
         "the very exception raised, operands are forced with the propagating continuation and bind passes exceptions "
         "through, an exception without pending handler leaves the frame / reaches the top, failed cells fail identically "
         "again; big-step rules: sequencing, an exception of the first part propagates through any continuation and any demand, "
         "try runs its handler exactly on the raised exception. Implementation: faults planted in 52 strict positions with nested payloads, caught and uncaught.", "5 C10"),
 'C13': ("Theorems over the evaluator model: a demand for a completed cell is served from the cell (value or identical "
         "exception) with no new frame / start / event, frames created for completed cells return the cache, interpretation "
         "starts only on incomplete cells, a finished frame's cell and its whole requestor chain receive the outcome; in the "
         "big-step semantics a completed cell (value or failure) is served in the same store and world. Implementation: "
         "observer event streams equal the model's; no expression has two evaluations with children; doubling / fan-out "
         "families are linear.", "5 C13"),
 'C19': ("Invariant proofs: depth = Σ|debug_stack|, one entry per frame; the event log is a balanced bracket word whose open "
         "brackets are the pending evaluations (replay function); depth 0 and all brackets closed when evaluation ends with "
         "a value or exception; step commutes with forgetting the observer's state (transparency). Implementation streams "
         "are compared event by event with the model's and checked by an independent nesting monitor.", "5 C19"),
 'C06': ("Theorems: the key comparison used by ㄴ and by dictionaries decides equality of canonical keys (so it is an "
         "equivalence that never relates different keys; −1 ≠ −2 whatever the host hashes), kinds differ, integers / lists / "
         "functions compare by value / content / identity; dictionary lookup returns the value of the latest entry whose key "
         "equals the probe (fold specification), misses find nothing, merge is construction from the concatenated entries. "
         "Numeric equality across int / real / complex is carried by exact dyadic keys, validated by an independent exact-"
         "rational oracle on an adversarial pool.", "5 C06"),
 'C07': ("Theorems: the I/O built-ins only construct action values (no world node), what executing read / print / return does "
         "to the world (one line without newline, Nil at EOF consuming nothing, string + newline), ㄱㄹ runs its first action "
         "then the continuation on its value or the handler on its exception, the do_IO loop executes the returned action "
         "next; big-step execution rules: a ㄱㄹ action executes its first action, applies the continuation to the produced "
         "value, executes the returned action — the world threaded in exactly this order — or routes the raised exception to the "
         "handler / propagates it; the monad laws as theorems over the execution judgment (left identity for non-action payloads, right "
         "identity for results without components, sequencing of a left-nested bind). Monad laws and random bind trees are also checked "
         "on all observables against a sequential oracle and the model; "
         "left identity for I/O payloads is a recorded finding.", "5 C07"),
 'C11': ("Theorems: ㄷ / ㄱ on integers are the exact sum / product (fold lemmas), ㄴㄴ is truncated division and ㄴㅁ the "
         "truncated remainder (proved equal to Int.tdiv / Int.tmod), n = q·d + r with |r| < |d| and r carrying the sign of n, "
         "division by zero is the Division exception, exact powers, strict total order on integers, exact int/float "
         "comparison through dyadic keys, Boolean ㄱ / ㄷ = all / any. Float ** and libm are opaque.", "5 C11"),
 'C12': ("Theorems: index accepted iff −len ≤ i < len; slice positions are s, s+step, … (< e, count maximal) with s, e "
         "clamped as documented; zero step rejected; map keeps order; folds are the monadic left fold over the feed with the "
         "documented argument order; join∘split = id for every non-empty separator (any element type); concatenation.", "5 C12"),
 'C14': ("Theorems about the byte-array file specification of the model: open keeps / empties / requires contents per mode, "
         "append writes land at the end, written window read back, every other byte preserved, gaps zero-filled, truncate "
         "length / prefix, and read / write / tell / seek / truncate / rejection lemmas for the handle operations. That a "
         "real handle behaves as this specification is the correspondence on real files (all short histories per mode + "
         "random histories).", "5 C14"),
 'C15': ("Theorems: a name matches a literal iff its stripped skeleton is one digit word of that value; a registered path is "
         "returned without re-reading; a loaded module is delayed in the empty environment and registered; empty / multi-"
         "expression / missing / ambiguous modules are language exceptions. Search on real scratch trees vs the model.", "5 C15"),
 'C16': ("Theorems for every width ≥ 1, order and signedness: encoded bytes are the value modulo 2^(8w) (two's complement), "
         "big = reverse of little, decode∘encode = id, encodable iff in range. UTF-8/16/32 codecs are defined independently in "
         "the model and validated against independent harness encoders (no round-trip theorem yet).", "5 C16"),
 'C17': ("Theorems: and / or / xor / not act bit by bit on infinite two's-complement strings for all integers and positions; "
         "shifts = ×2ⁿ / floor ÷2ⁿ; for every binary64 value m·2^e: floor / ceiling inequalities (unique integer), trunc / away "
         "by sign, round-to-nearest with ties to even.", "5 C17"),
 'C18': ("Theorems: ㅈㅅ(ㅁㅈ(n)) = n for every integer (decimal printing read back by the model's int parser); dictionary "
         "entries are printed in an order independent of insertion order (permutation invariance for distinct printed keys). "
         "Float printing (own shortest-round-trip algorithm) and cli.run are validated by correspondence (random bit "
         "patterns; exit statuses).", "5 C18"),
 'C20': ("The model's front end is a function of (program, stdin, files, module registry): no hash seed, no interpreter "
         "state — determinism by construction; and a theorem about evaluations sharing one heap: a closed program of the fragment of "
         "the call-by-name reference semantics, evaluated in any heap that satisfies the adequacy invariant (the initial one or one "
         "left by earlier evaluations), computes its by-name value and re-establishes the invariant, so every sequence of such "
         "programs yields the values the programs have on their own. Beyond the fragment the check is the correspondence: sessions of "
         "programs in one process (imports, stack-limit aborts, I/O) vs stand-alone outcomes vs the model, and fresh "
         "processes under several PYTHONHASHSEED values.", "5 C20"),
 'C08': ("Theorems for all integers / all digit words: decode∘encode = id, characterisation of all spellings, encoder "
         "shortest; name tables regenerated from the source are canonical spellings so lookups depend on the value only.", "5 C08"),
 'C09': ("Theorems for all trees: parse∘unparse = id (spans included), stack effect and totality of every word with the "
         "error carrying exactly that word's span, tokens always well-formed. Implementation parser compared tree-by-tree "
         "(with spans) against the model parser.", "5 C09"),
}

def main():
    checks, na = [], []
    have = {f[:-3].upper() for f in os.listdir(os.path.join(HERE, 'uh', 'props')) if f.startswith('c') and f.endswith('.py')}
    for i in IDS:
        if i in have and i in TEXT:
            text, ref = TEXT[i]
            checks.append({
                "property_id": i,
                "quick_cmd": f"./check {i} --tier quick",
                "thorough_cmd": f"./check {i} --tier thorough",
                "evidence_file": f"/verif/evidence/{i}.json",
                "replay_cmd_template": f"./check {i} --replay {{path}}",
                "engine": "lean4-proof+correspondence",
                "level_claimed": {"category": "proof", "text": text, "design_ref": "DESIGN.md §" + ref},
                "level_note": COMMON_NOTE,
                "technique": "Lean 4 machine-checked proof over an executable model, tied to the source by table regeneration and differential correspondence",
            })
        else:
            na.append({"property_id": i, "reason": "check not built yet (framework under construction); will be claimed once its check runs clean"})
    m = {"version": 1, "setup_cmd": "./setup.sh",
         "hooks": {"guard": "UNSUSPECTED_HANGEUL_VERIF",
                   "enable": "no hooks needed: every observation uses public API (parse.parse, main.main, cli.run, interpret.evaluate(debugger=))",
                   "baseline_off_cmd": "cd /repo && /venv/bin/python -m pytest -ra -q -p no:cacheprovider --timeout=900",
                   "source_commits": [], "add_only": True},
         "engines": [{"name": "lean4-proof+correspondence", "path": "/verif/check", "serves_properties": sorted(have & set(TEXT)),
                      "kind_free_text": "Lean 4 library UH (model + theorems), tie-A translators, compiled model driver uhdrv, Python correspondence harness"}],
         "checks": checks, "not_applicable": na,
         "notes": "See DESIGN.md. Checks may run concurrently (the Lean stage is serialised by a lock)."}
    json.dump(m, open(os.path.join(VERIF, 'MANIFEST.json'), 'w'), indent=1, ensure_ascii=False)
    print(len(checks), 'claimed;', len(na), 'not applicable')
main()
