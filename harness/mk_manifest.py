#!/usr/bin/env python3
"""Writes /verif/MANIFEST.json from the table below (keeps it valid and current)."""
import json, os
HERE = os.path.dirname(os.path.abspath(__file__))
VERIF = os.path.dirname(HERE)
IDS = [json.loads(l)['id'] for l in open(os.path.join(VERIF, 'properties.jsonl'))]

COMMON_NOTE = ("Trusted: Lean 4.33 kernel; axioms propext / Classical.choice / Quot.sound only (audited every run); "
               "the tie-A translators (harness/extract) and the tie-B correspondence harness (harness/uh), which "
               "establishes agreement of model and implementation only on the generated inputs; the hand-written "
               "model UH/Model/*.lean is tied to the code by that correspondence, not by proof. ")

TEXT = {
 'C01': ("Kernel-checked theorems: the per-code-point normalisation table extracted from the current Python source "
         "(all 1,114,112 code points) and translated from parse.ts (all code units) equals the specification map defined "
         "from Unicode letter names (verified interval checker); block independence, syllable = initial, ㅇ/ㅎ start "
         "words, tokens are well-formed words, same skeleton ⇒ same parse up to spans. Evaluation of re-spelled programs "
         "is covered by correspondence.", "5 C01"),
 'C02': ("Theorems about the model's interpret / applyCallee: index rules of function and argument references, closures "
         "capture the defining environment and are applied in it independently of the caller, self/outer references, the "
         "selection / indexing rule of every callable kind. That the implementation computes what the model computes is "
         "the correspondence on generated programs.", "5 C02"),
 'C08': ("Theorems for all integers / all digit words: decode∘encode = id, characterisation of all spellings, encoder "
         "shortest; name tables regenerated from the source are canonical spellings so lookups depend on the value only.", "5 C08"),
 'C09': ("Theorems for all trees: parse∘unparse = id (spans included), stack effect and totality of every word with the "
         "error carrying exactly that word's span, tokens always well-formed. Implementation parser compared tree-by-tree "
         "(with spans) against the model parser.", "5 C09"),
}

def main():
    checks, na = [], []
    have = {f[:-3].upper() for f in os.listdir(os.path.join(HERE, 'uh', 'props')) if f.startswith('c') and f.endswith('.py')}
    for i in IDS:
        if i in have and i in TEXT:
            text, ref = TEXT[i]
            checks.append({
                "property_id": i,
                "quick_cmd": f"./check {i} --tier quick",
                "thorough_cmd": f"./check {i} --tier thorough",
                "evidence_file": f"/verif/evidence/{i}.json",
                "replay_cmd_template": f"./check {i} --replay {{path}}",
                "engine": "lean4-proof+correspondence",
                "level_claimed": {"category": "proof", "text": text, "design_ref": "DESIGN.md §" + ref},
                "level_note": COMMON_NOTE,
                "technique": "Lean 4 machine-checked proof over an executable model, tied to the source by table regeneration and differential correspondence",
            })
        else:
            na.append({"property_id": i, "reason": "check not built yet (framework under construction); will be claimed once its check runs clean"})
    m = {"version": 1, "setup_cmd": "./setup.sh",
         "hooks": {"guard": "UNSUSPECTED_HANGEUL_VERIF",
                   "enable": "no hooks needed: every observation uses public API (parse.parse, main.main, cli.run, interpret.evaluate(debugger=))",
                   "baseline_off_cmd": "cd /repo && /venv/bin/python -m pytest -ra -q -p no:cacheprovider --timeout=900",
                   "source_commits": [], "add_only": True},
         "engines": [{"name": "lean4-proof+correspondence", "path": "/verif/check", "serves_properties": sorted(have & set(TEXT)),
                      "kind_free_text": "Lean 4 library UH (model + theorems), tie-A translators, compiled model driver uhdrv, Python correspondence harness"}],
         "checks": checks, "not_applicable": na,
         "notes": "See DESIGN.md. Checks may run concurrently (the Lean stage is serialised by a lock)."}
    json.dump(m, open(os.path.join(VERIF, 'MANIFEST.json'), 'w'), indent=1, ensure_ascii=False)
    print(len(checks), 'claimed;', len(na), 'not applicable')
main()
