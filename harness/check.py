#!/venv/bin/python
"""check <ID> [--tier quick|thorough] [--replay PATH]

Runs, for one property: (1) tie A regeneration, (2) `lake build` of the property's
theorems and the model driver, (3) axiom / forbidden-construct audit,
(4) the correspondence + monitors of the property, (5) on any failure the
failing-input search, (6) writes evidence/<ID>.json.  Exit 0 = held on everything
explored; 1 = VIOLATION line printed; 2 = infrastructure failure."""
import sys, os, json, time, argparse, random, importlib, collections, traceback

HERE = os.path.dirname(os.path.abspath(__file__))
sys.path.insert(0, HERE)
from uh import common, leanstage, corr   # noqa: E402
if os.environ.get('UH_FAULT'):           # development aid: `kill -USR1 <pid>` prints every thread's stack (inherited by workers)
    import faulthandler, signal
    faulthandler.register(signal.SIGUSR1, all_threads=True)

VERIF = common.VERIF


def load_known():
    known, fixed = [], []
    p = os.path.join(VERIF, 'known_findings.txt')
    if os.path.exists(p):
        for line in open(p, encoding='utf-8'):
            line = line.strip()
            if line.startswith('finding:'):
                body, _, desc = line[len('finding:'):].partition('::')
                import re as _re
                mp = _re.search(r'property=(\S+)', body)
                mk = _re.search(r'key="([^"]*)"', body)
                mt = _re.search(r'tag="([^"]*)"', body)
                known.append({'property': mp.group(1) if mp else None, 'key': mk.group(1) if mk else None,
                              'tag': mt.group(1) if mt else None, 'desc': desc.strip()})
            elif line.startswith('fixed:'):
                fixed.append(line)
    return known, fixed


def write_replay(prop, name, payload):
    d = os.path.join(VERIF, 'replays', prop)
    os.makedirs(d, exist_ok=True)
    path = os.path.join(d, name)
    with open(path, 'w', encoding='utf-8') as f:
        json.dump(payload, f, ensure_ascii=False, indent=1, default=str)
    return os.path.relpath(path, VERIF)


def default_relevant(rec, case):
    """Unless a property says otherwise (C09 and C10 are about source locations too, C02 / C04 / C05 have their own rule),
    a disagreement that lies only in the *source locations* attached to an exception — same kind of outcome, same
    results / exception contents, same output, input consumption, files and events — is a broken correspondence, not an
    input on which the property fails."""
    d = rec.get('detail', {})
    a, m = dict(d.get('impl', {})), dict(d.get('model', {}))
    if not a or not m:
        return True
    a.pop('spans', None); m.pop('spans', None)
    return a != m


def main():
    ap = argparse.ArgumentParser()
    ap.add_argument('prop')
    ap.add_argument('--tier', default=os.environ.get('VERIF_TIER', 'quick'))
    ap.add_argument('--replay')
    ap.add_argument('--skip-lean', action='store_true', help='(development only)')
    args = ap.parse_args()
    prop = args.prop.upper()
    tier = 'thorough' if args.tier.startswith('t') else 'quick'
    seed = int(os.environ.get('VERIF_SEED', '0') or 0)
    t0 = time.time()
    try:
        mod = importlib.import_module(f'uh.props.{prop.lower()}')
    except ImportError:
        print(f"no check for property {prop}", file=sys.stderr)
        return 2
    spec = mod.SPEC
    known, _ = load_known()
    known = [k for k in known if k['property'] == prop]
    violations = []      # (replay payload, found_input: bool)
    notes = []
    lean_info = {}

    # ---- replay mode: re-run one recorded case ------------------------------------------
    if args.replay:
        payload = json.load(open(args.replay, encoding='utf-8'))
        case = payload.get('case')
        if not case:
            print("replay file names a broken obligation, not an input:", payload.get('broken'))
            return 1
        c = corr.Case(**{k: (tuple(v) if k in ('variants', 'argv', 'before') else v) for k, v in case.items()
                         if k in corr.Case.__dataclass_fields__})
        if c.fs:
            c.fs = {p: (bytes.fromhex(v) if isinstance(v, str) else v) for p, v in c.fs.items()}
        rec = corr.run_case(c)
        print(json.dumps(rec, ensure_ascii=False, indent=1, default=str))
        return 0 if rec['status'] in ('agree', 'skip') else 1

    # replays of an earlier run of this check would be mistaken for this run's
    import glob as _glob
    for old in _glob.glob(os.path.join(VERIF, 'replays', prop, 'violation_*.json')):
        try: os.unlink(old)
        except OSError: pass

    # ---- (1)-(3) Lean stage ------------------------------------------------------------
    obligations = discharged = 0
    theorem_list = []
    broken = None
    if not args.skip_lean:
        try:
            lean_info['regenerate'] = leanstage.regenerate()
        except Exception as e:
            broken = {'stage': 'translate', 'error': f"{type(e).__name__}: {e}"}
            notes.append("translator failed: " + str(e)[:200])
        modules = ['UH.Properties.' + f for f in spec['lean']]
        ok, log, failed = leanstage.build(modules)
        lean_info['build_ok'] = ok
        files = [f"UH/Properties/{f}.lean" for f in spec['lean']]
        for f in files:
            theorem_list += leanstage.theorem_names(os.path.join(common.LEAN_DIR, f))
        obligations = len(theorem_list)
        if not ok:
            names = sorted({leanstage.theorem_at(f['file'], f['line']) or f['file'] for f in failed})
            broken = {'stage': 'proof', 'theorems': names, 'errors': failed[:10], 'log_tail': log[-1500:]}
            if not os.path.exists(common.UHDRV):
                print("model driver could not be built", file=sys.stderr)
                print(log[-3000:], file=sys.stderr)
                return 2
        else:
            aud = leanstage.audit(files)
            lean_info['axioms'] = sorted({a for axs in aud['axioms'].values() for a in axs})
            hits = leanstage.forbidden_hits()
            if aud['bad'] or aud['missing'] or hits:
                broken = {'stage': 'audit', 'bad_axioms': aud['bad'], 'missing': aud['missing'],
                          'forbidden': hits, 'log': aud['log']}
            discharged = len([n for n in theorem_list if n in aud['axioms'] and n not in aud['bad']])
            if tier == 'thorough' and not broken:
                rk_ok, rk_log = leanstage.recheck(modules)
                lean_info['leanchecker'] = 'ok' if rk_ok else 'FAILED'
                if not rk_ok:
                    broken = {'stage': 'recheck', 'theorems': modules, 'log_tail': rk_log[-1500:]}
                    discharged = 0
    # ---- (4) correspondence + monitors ----------------------------------------------------
    rng = random.Random(common.seed_for(seed, prop, tier))
    cases = list(spec['cases'](rng, tier))
    if spec.get('big'):
        # evaluate every ordinary case with the verified big-step evaluator as well (see corr.run_case)
        for c in cases:
            if c.mode == 'main' and not c.skip_model and c.fuel <= 3_000_000:
                c.big = True
    recs = corr.run_cases(cases)
    stats = collections.Counter(r['status'] for r in recs)
    kinds = collections.Counter((r.get('impl_kind'), r.get('model_kind')) for r in recs)
    errs = collections.Counter(r.get('err') for r in recs if r.get('err'))
    skips = collections.Counter(r.get('why') for r in recs if r['status'] == 'skip')
    tags = collections.Counter(r.get('tag') for r in recs)
    harness_errors = [r for r in recs if r['status'] == 'harness-error']
    if harness_errors:
        print("harness error:", harness_errors[0].get('detail'), file=sys.stderr)
        return 2
    known_hits = []
    def case_json(c):
        d = {k: getattr(c, k) for k in ('program', 'stdin', 'format_io', 'mode', 'argv', 'tag', 'variants',
                                         'monitor', 'data', 'compare_fs', 'before')}
        d['fs'] = {p: (v.hex() if isinstance(v, (bytes, bytearray)) else v) for p, v in (c.fs or {}).items()} or None
        return d
    for r in recs:
        if r['status'] in ('crash', 'monitor-fail'):
            key = r.get('crash') or r.get('why')
            # a listed finding matches only its own case family (tag) *and* failure (key)
            k = next((k for k in known if k['key'] and key and k['key'] in key
                      and (k['tag'] is None or k['tag'] == str(r.get('tag')).split(':')[0])), None)
            if k:
                known_hits.append((k, r)); continue
            violations.append(({'property': prop, 'kind': r['status'], 'what': key, 'case': case_json(cases[r['idx']]),
                                'observed': r.get('detail')}, True))
        elif r['status'] == 'disagree':
            # model ≠ implementation: a violation only if the property's own observables differ
            relevant = spec.get('relevant', default_relevant)(r, cases[r['idx']])
            violations.append(({'property': prop, 'kind': 'disagree',
                                'what': 'implementation differs from the executable model (the specification semantics)'
                                        if relevant else
                                        'correspondence broken on observables outside the property; no input found on which the property itself fails',
                                'correspondence': spec.get('stream', prop + ' correspondence stream'),
                                'case': case_json(cases[r['idx']]), 'observed': r.get('detail')}, relevant))
    # ---- (5) failing-input search when a proof obligation broke --------------------------
    if broken:
        found = None
        if 'search' in spec:
            try:
                found = spec['search'](rng, tier)
            except Exception as e:
                notes.append("search failed: " + traceback.format_exc()[-400:])
        if found:
            violations.append(({'property': prop, 'kind': 'proof-broken', 'broken': broken, **found}, True))
        elif not any(v[1] for v in violations):
            violations.append(({'property': prop, 'kind': 'proof-broken', 'broken': broken,
                                'what': 'proof obligation / audit no longer checks; no failing input found'}, False))
    # ---- verdict --------------------------------------------------------------------------
    for k, r in known_hits[:50]:
        pass
    for k in {id(k): k for k, _ in known_hits}.values():
        print(f"KNOWN-FINDING: property={prop} {('tag=' + k['tag'] + ' ') if k['tag'] else ''}{k['key']} :: {k['desc']}")
    # one VIOLATION line per distinct 'what' (the first with a concrete input first)
    seen = set()
    vio_count = 0
    for payload, found in sorted(violations, key=lambda v: not v[1]):
        sig = (payload.get('kind'), str(payload.get('what'))[:80])
        if sig in seen:
            continue
        seen.add(sig)
        vio_count += 1
        path = write_replay(prop, f"violation_{seed}_{vio_count}.json", payload)
        print(f"VIOLATION property={prop} replay={path}" + ("" if found else " no-failing-input-found"))
        if vio_count >= 5:
            break
    # ---- (6) evidence ---------------------------------------------------------------------
    nontrivial = len({cases[r['idx']].key() for r in recs
                      if r.get('nontrivial') and r['status'] in ('agree', 'disagree', 'crash', 'monitor-fail')})
    samples = [{'tag': c.tag, 'program': c.program[:300], 'stdin': c.stdin[:60], 'mode': c.mode}
               for c in cases[:3] + cases[len(cases) // 2: len(cases) // 2 + 2]]
    ev = {
        'property_id': prop, 'tier': tier, 'seed': seed, 'level': 'proof',
        'coverage': {
            'obligations': max(obligations, 1), 'discharged': max(discharged, 0 if broken else 1) if obligations else 0,
            'checker_cmd': 'cd lean && lake build ' + " ".join('UH.Properties.' + f for f in spec['lean'])
                           + ' && #print axioms of every theorem (harness/uh/leanstage.py audit)',
            'trusted_base': ['Lean 4.33.0 kernel', 'axioms: ' + ", ".join(lean_info.get('axioms', [])),
                             'tie A translators harness/extract/*.py', 'correspondence harness harness/uh/*.py (agreement only on generated inputs)']
                            + spec.get('trusted', []),
            'theorems': theorem_list,
            'evaluations': len(recs), 'distinct_nontrivial': nontrivial,
            'rule': spec['rule'], 'samples': samples,
            'traces_validated_against_impl': stats.get('agree', 0),
            'bigstep_evaluator': {'cases': sum(1 for r in recs if 'big_kind' in r),
                                  'returned_a_result': sum(1 for r in recs if r.get('big_kind') in ('ok', 'err', 'limit')),
                                  'out_of_fuel_or_unmodelled': sum(1 for r in recs if r.get('big_kind') in ('fuel', 'unmodelled')),
                                  'max_height': max([r.get('big_height', 0) for r in recs] or [0]),
                                  'note': 'cases also evaluated by the verified executable big-step evaluator evalF (driver main2); every result witnesses a derivation of BigStep.Eval and must equal the implementation'},
            'by_name_reference': {'programs_with_a_by_name_value': sum(1 for r in recs if r.get('bn') == 'value'),
                                  'programs_with_a_function_value': sum(1 for r in recs if r.get('bn') == 'fn'),
                                  'note': 'single-expression programs inside the fragment of the call-by-name reference semantics (ByName.BN); the value the executable reference evaluator bnEval assigns (proved to be a BN value, hence by adequacy the evaluator\'s value) must be what the implementation prints'},
            'status_counts': dict(stats), 'outcome_kinds': {f"{a}/{b}": n for (a, b), n in kinds.items()},
            'error_values_seen': dict(errs.most_common(12)), 'skipped_unmodelled': dict(skips.most_common(10)),
            'tags': dict(tags.most_common(30)), 'lean': lean_info, 'notes': notes,
            'known_findings_hit': sorted({k['key'] for k, _ in known_hits}),
        },
        'assumptions': spec.get('assumptions', []),
        'wall_s': round(time.time() - t0, 2), 'violations': vio_count,
    }
    if obligations == 0:
        ev['coverage']['obligations'] = 1; ev['coverage']['discharged'] = 0
    os.makedirs(os.path.join(VERIF, 'evidence'), exist_ok=True)
    if not args.skip_lean and not os.environ.get('UH_NO_EVIDENCE'):      # development / seeded-change runs are not evidence
        with open(os.path.join(VERIF, 'evidence', prop + '.json'), 'w', encoding='utf-8') as f:
            json.dump(ev, f, ensure_ascii=False, indent=1, default=str)
    print(f"{prop} {tier}: {len(recs)} cases {dict(stats)}; theorems {discharged}/{obligations}; "
          f"{vio_count} violation(s); {ev['wall_s']} s")
    return 1 if vio_count else 0


if __name__ == '__main__':
    try:
        sys.exit(main())
    except KeyboardInterrupt:
        sys.exit(2)
    except Exception:
        traceback.print_exc()
        sys.exit(2)
